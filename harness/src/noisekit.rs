//! Shared Noise helpers: seeded identities, honest sessions over in-memory pipes and a rogue peer
//! that speaks `Noise_XX_25519_ChaChaPoly_SHA256` through `snow` directly (independent of
//! litep2p's `NoiseContext`) so that it can put arbitrary identity payloads into a *valid* session.

use crate::common::Rng;
use futures::io::{AsyncRead, AsyncReadExt, AsyncWrite, AsyncWriteExt};
use litep2p::{
    config::Role,
    crypto::ed25519::{Keypair, SecretKey},
    verif::noise::{handshake, HandshakeTransport, NoiseSocket},
    PeerId,
};
use std::time::Duration;

pub const STATIC_KEY_DOMAIN: &[u8] = b"noise-libp2p-static-key:";
pub const NOISE_PARAMS: &str = "Noise_XX_25519_ChaChaPoly_SHA256";

/// A seeded ed25519 identity, available both as litep2p keypair and as reference keypair.
#[derive(Clone)]
pub struct Identity {
    pub secret: [u8; 32],
    pub keypair: Keypair,
    pub reference: libp2p_identity::Keypair,
    pub peer: PeerId,
}

impl Identity {
    pub fn from_seed(secret: [u8; 32]) -> Self {
        let mut s = secret;
        let sk = SecretKey::try_from_bytes(&mut s).expect("32 byte secret");
        let keypair = Keypair::from(sk);
        let mut s2 = secret;
        let reference = libp2p_identity::Keypair::ed25519_from_bytes(&mut s2).expect("32 byte secret");
        // the ground truth peer id comes from the *reference* implementation
        let peer = PeerId::from_bytes(&reference.public().to_peer_id().to_bytes()).expect("valid peer id");
        Identity { secret, keypair, reference, peer }
    }
    pub fn random(rng: &mut Rng) -> Self {
        let mut s = [0u8; 32];
        rng.fill(&mut s);
        Self::from_seed(s)
    }
    /// Protobuf encoding of the public key (reference encoder).
    pub fn public_protobuf(&self) -> Vec<u8> {
        self.reference.public().encode_protobuf()
    }
    pub fn sign(&self, msg: &[u8]) -> Vec<u8> {
        self.reference.sign(msg).expect("ed25519 signing cannot fail")
    }
}

pub async fn real_handshake<S: AsyncRead + AsyncWrite + Unpin>(
    io: S,
    id: &Identity,
    role: Role,
    read_ahead: usize,
    write_buffer: usize,
    timeout: Duration,
) -> Result<(NoiseSocket<S>, PeerId), String> {
    handshake(io, &id.keypair, role, read_ahead, write_buffer, timeout, HandshakeTransport::Tcp)
        .await
        .map_err(|e| format!("{e:?}"))
}

// ---------------------------------------------------------------------------------------------
// snow resolver with X25519 through x25519-dalek's free function
// ---------------------------------------------------------------------------------------------

struct Dh25519 {
    privkey: [u8; 32],
    pubkey: [u8; 32],
}

impl snow::types::Dh for Dh25519 {
    fn name(&self) -> &'static str {
        "25519"
    }
    fn pub_len(&self) -> usize {
        32
    }
    fn priv_len(&self) -> usize {
        32
    }
    fn set(&mut self, privkey: &[u8]) {
        self.privkey.copy_from_slice(&privkey[..32]);
        self.pubkey = x25519_dalek::x25519(self.privkey, x25519_dalek::X25519_BASEPOINT_BYTES);
    }
    fn generate(&mut self, rng: &mut dyn snow::types::Random) {
        let mut k = [0u8; 32];
        rng.fill_bytes(&mut k);
        self.set(&k);
    }
    fn pubkey(&self) -> &[u8] {
        &self.pubkey
    }
    fn privkey(&self) -> &[u8] {
        &self.privkey
    }
    fn dh(&self, pubkey: &[u8], out: &mut [u8]) -> Result<(), snow::Error> {
        let mut p = [0u8; 32];
        p.copy_from_slice(&pubkey[..32]);
        let r = x25519_dalek::x25519(self.privkey, p);
        out[..32].copy_from_slice(&r);
        Ok(())
    }
}

struct SeededRandom(rand::rngs::StdRng);
impl rand::RngCore for SeededRandom {
    fn next_u32(&mut self) -> u32 {
        self.0.next_u32()
    }
    fn next_u64(&mut self) -> u64 {
        self.0.next_u64()
    }
    fn fill_bytes(&mut self, dest: &mut [u8]) {
        self.0.fill_bytes(dest)
    }
    fn try_fill_bytes(&mut self, dest: &mut [u8]) -> Result<(), rand::Error> {
        self.0.try_fill_bytes(dest)
    }
}
impl rand::CryptoRng for SeededRandom {}
impl snow::types::Random for SeededRandom {}

pub struct RogueResolver(pub u64);

impl snow::resolvers::CryptoResolver for RogueResolver {
    fn resolve_rng(&self) -> Option<Box<dyn snow::types::Random>> {
        use rand::SeedableRng;
        Some(Box::new(SeededRandom(rand::rngs::StdRng::seed_from_u64(self.0))))
    }
    fn resolve_dh(&self, choice: &snow::params::DHChoice) -> Option<Box<dyn snow::types::Dh>> {
        match choice {
            snow::params::DHChoice::Curve25519 => Some(Box::new(Dh25519 { privkey: [0; 32], pubkey: [0; 32] })),
            _ => None,
        }
    }
    fn resolve_hash(&self, choice: &snow::params::HashChoice) -> Option<Box<dyn snow::types::Hash>> {
        snow::resolvers::RingResolver.resolve_hash(choice)
    }
    fn resolve_cipher(&self, choice: &snow::params::CipherChoice) -> Option<Box<dyn snow::types::Cipher>> {
        snow::resolvers::RingResolver.resolve_cipher(choice)
    }
}

// ---------------------------------------------------------------------------------------------
// Protobuf by hand (field 1/2 length-delimited)
// ---------------------------------------------------------------------------------------------

pub fn pb_varint(mut v: u64, out: &mut Vec<u8>) {
    loop {
        let b = (v & 0x7f) as u8;
        v >>= 7;
        if v == 0 {
            out.push(b);
            return;
        }
        out.push(b | 0x80);
    }
}

pub fn pb_bytes_field(field: u32, data: &[u8], out: &mut Vec<u8>) {
    pb_varint(((field as u64) << 3) | 2, out);
    pb_varint(data.len() as u64, out);
    out.extend_from_slice(data);
}

pub fn pb_varint_field(field: u32, v: u64, out: &mut Vec<u8>) {
    pb_varint((field as u64) << 3, out);
    pb_varint(v, out);
}

/// `NoiseHandshakePayload { identity_key = 1, identity_sig = 2 }`.
pub fn noise_payload(identity_key: Option<&[u8]>, identity_sig: Option<&[u8]>) -> Vec<u8> {
    let mut out = Vec::new();
    if let Some(k) = identity_key {
        pb_bytes_field(1, k, &mut out);
    }
    if let Some(s) = identity_sig {
        pb_bytes_field(2, s, &mut out);
    }
    out
}

/// `keys_proto::PublicKey { Type = 1 (varint), Data = 2 }`.
pub fn public_key_proto(key_type: u64, data: &[u8]) -> Vec<u8> {
    let mut out = Vec::new();
    pb_varint_field(1, key_type, &mut out);
    pb_bytes_field(2, data, &mut out);
    out
}

// ---------------------------------------------------------------------------------------------
// Rogue peer
// ---------------------------------------------------------------------------------------------

/// What the rogue learnt during its handshake.
pub struct RogueOutcome {
    /// Our Noise static public key in this session.
    pub local_static: [u8; 32],
    /// The victim's Noise static public key in this session.
    pub remote_static: Option<[u8; 32]>,
    /// The decrypted identity payload the victim sent.
    pub remote_payload: Vec<u8>,
    /// Transport state, if the handshake completed on our side.
    pub transport: Option<snow::TransportState>,
}

async fn read_msg<S: AsyncRead + Unpin>(io: &mut S) -> std::io::Result<Vec<u8>> {
    let mut len = [0u8; 2];
    io.read_exact(&mut len).await?;
    let mut buf = vec![0u8; u16::from_be_bytes(len) as usize];
    io.read_exact(&mut buf).await?;
    Ok(buf)
}

async fn write_msg<S: AsyncWrite + Unpin>(io: &mut S, msg: &[u8]) -> std::io::Result<()> {
    io.write_all(&(msg.len() as u16).to_be_bytes()).await?;
    io.write_all(msg).await?;
    io.flush().await
}

/// Run the rogue side of an XX handshake. `make_payload(local static pubkey)` builds the identity
/// payload that is put (encrypted and authenticated by the Noise session) into our message.
pub async fn rogue_handshake<S, F>(
    io: &mut S,
    initiator: bool,
    static_private: [u8; 32],
    rng_seed: u64,
    make_payload: F,
) -> Result<RogueOutcome, String>
where
    S: AsyncRead + AsyncWrite + Unpin,
    F: FnOnce(&[u8; 32]) -> Vec<u8>,
{
    let local_static = x25519_dalek::x25519(static_private, x25519_dalek::X25519_BASEPOINT_BYTES);
    let builder = snow::Builder::with_resolver(
        NOISE_PARAMS.parse().map_err(|e| format!("{e:?}"))?,
        Box::new(RogueResolver(rng_seed)),
    )
    .local_private_key(&static_private);
    let mut hs = if initiator { builder.build_initiator() } else { builder.build_responder() }
        .map_err(|e| format!("snow build: {e:?}"))?;
    let payload = make_payload(&local_static);
    let mut buf = vec![0u8; 65535];
    let mut out = vec![0u8; 65535];
    let mut remote_payload = Vec::new();
    let e = |e: snow::Error| format!("snow: {e:?}");
    let ioe = |e: std::io::Error| format!("io: {e:?}");
    if initiator {
        let n = hs.write_message(&[], &mut buf).map_err(e)?;
        write_msg(io, &buf[..n]).await.map_err(ioe)?;
        let m = read_msg(io).await.map_err(ioe)?;
        let n = hs.read_message(&m, &mut out).map_err(e)?;
        remote_payload.extend_from_slice(&out[..n]);
        let n = hs.write_message(&payload, &mut buf).map_err(e)?;
        write_msg(io, &buf[..n]).await.map_err(ioe)?;
    } else {
        let m = read_msg(io).await.map_err(ioe)?;
        hs.read_message(&m, &mut out).map_err(e)?;
        let n = hs.write_message(&payload, &mut buf).map_err(e)?;
        write_msg(io, &buf[..n]).await.map_err(ioe)?;
        let m = read_msg(io).await.map_err(ioe)?;
        let n = hs.read_message(&m, &mut out).map_err(e)?;
        remote_payload.extend_from_slice(&out[..n]);
    }
    let remote_static = hs.get_remote_static().map(|s| {
        let mut a = [0u8; 32];
        a.copy_from_slice(&s[..32]);
        a
    });
    let transport = hs.into_transport_mode().ok();
    Ok(RogueOutcome { local_static, remote_static, remote_payload, transport })
}

/// Encrypt one transport frame the way the wire expects it (`u16 len | ciphertext`).
pub fn rogue_encrypt(ts: &mut snow::TransportState, plaintext: &[u8]) -> Vec<u8> {
    let mut buf = vec![0u8; plaintext.len() + 16];
    let n = ts.write_message(plaintext, &mut buf).expect("encrypt");
    let mut out = (n as u16).to_be_bytes().to_vec();
    out.extend_from_slice(&buf[..n]);
    out
}
