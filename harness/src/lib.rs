//! Runtime monitors for litep2p. One module per property (or per shared harness).

pub mod alloc;
pub mod common;

pub mod mempipe;
pub mod noisekit;
pub mod sworld;
pub mod nodes;
pub mod nodex;
pub mod mgrx;

pub mod c01;
pub mod c02;
pub mod c03;
pub mod c04;
pub mod c08;
pub mod c11;
pub mod c13;
pub mod c14;
pub mod c15;
pub mod c07;
pub mod c16;
pub mod c17;
pub mod c18;
pub mod c19;
pub mod c20;

use common::{Ctx, Report};

pub fn run_property(prop: &str, ctx: &Ctx) -> Option<Report> {
    Some(match prop {
        "C01" => c01::run(ctx),
        "C02" => c02::run(ctx),
        "C03" => c03::run(ctx),
        "C04" => c04::run(ctx),
        "C05" => mgrx::run(ctx, "C05"),
        "C06" => mgrx::run(ctx, "C06"),
        "C10" => mgrx::run(ctx, "C10"),
        "C08" => c08::run(ctx, "C08"),
        "C09A" => c08::run(ctx, "C09"),
        "C11" => c11::run(ctx, "C11"),
        "C12" => c11::run(ctx, "C12"),
        "C13" => c13::run(ctx),
        "C14" => c14::run(ctx),
        "C15" => c15::run(ctx),
        "C07" => c07::run(ctx),
        "C16" => c16::run(ctx),
        "C17" => c17::run(ctx),
        "C18" => c18::run(ctx),
        "C19" => c19::run(ctx),
        "C20" => c20::run(ctx),
        _ => return None,
    })
}
