//! Runtime monitors for litep2p. One module per property (or per shared harness).

pub mod alloc;
pub mod common;

pub mod c18;

use common::{Ctx, Report};

pub fn run_property(prop: &str, ctx: &Ctx) -> Option<Report> {
    Some(match prop {
        "C18" => c18::run(ctx),
        _ => return None,
    })
}
