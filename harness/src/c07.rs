//! C07 — a terminated connection is reported closed to everyone exactly once.
//!
//! Two real `Litep2p` nodes on loopback TCP (optionally through the fault proxy): the node under
//! test (NUT) and a remote. Both run two recording user protocols, one notification protocol and
//! one request-response protocol. A scenario connects them, produces substream activity, shuts a
//! local protocol of the NUT down (user protocol returns Ok / Err, notification handle dropped,
//! request-response handle dropped) before or while connected, lets the remote poke the dead or a
//! live protocol, ends the connection by one of several causes and repeats the cycle.
//!
//! Observers on the NUT: the application event stream (`Litep2pEvent`), the `TransportEvent`
//! stream of every user protocol, the result of `dial(peer)` after the connection ended. The
//! remote's application stream and the proxy give the ground truth "the TCP connection is gone".
//! Everything is stamped with the global counter at the user boundary; the verdict is computed
//! offline from the logs and the orchestrator's marks.

use crate::{
    common::{Ctx, Report, Rng},
    nodes::*,
};
use futures::StreamExt;
use litep2p::{
    codec::ProtocolCodec,
    protocol::{
        notification::{Config as NotifConfig, NotificationEvent, NotificationHandle, ValidationResult},
        request_response::{ConfigBuilder as RrBuilder, DialOptions, RequestResponseEvent, RequestResponseHandle},
        Direction, TransportEvent, TransportService, UserProtocol,
    },
    types::protocol::ProtocolName,
    PeerId,
};
use serde_json::{json, Value};
use std::{
    sync::{Arc, Mutex},
    time::{Duration, Instant},
};
use tokio::sync::mpsc;

const U: [&str; 2] = ["/verif/u0/1", "/verif/u1/1"];
const NPROTO: &str = "/verif/notif/1";
const RPROTO: &str = "/verif/rr/1";

// ---------------------------------------------------------------------------------------------
// recording user protocol
// ---------------------------------------------------------------------------------------------

#[derive(Clone, Debug, PartialEq)]
pub(crate) enum PEv {
    Est { peer: PeerId, cid: String },
    Closed { peer: PeerId },
    SubOpened { peer: PeerId, inbound: bool },
    SubFailed,
    DialFailure,
    OpenCall { ok: bool },
    ForceCloseCall { ok: bool },
    Exited(&'static str),
}

pub(crate) enum PCmd {
    Open(PeerId),
    ForceClose(PeerId),
    DropSubstreams,
    /// return from `run()`: `true` = with an error
    Exit(bool),
}

pub(crate) type PLog = Arc<Mutex<Vec<(u64, Instant, usize, PEv)>>>;

struct Probe {
    idx: usize,
    log: PLog,
    rx: mpsc::UnboundedReceiver<PCmd>,
}

impl Probe {
    fn push(&self, e: PEv) {
        self.log.lock().unwrap().push((tick(), Instant::now(), self.idx, e));
    }
}

#[async_trait::async_trait]
impl UserProtocol for Probe {
    fn protocol(&self) -> ProtocolName {
        ProtocolName::from(U[self.idx])
    }
    fn codec(&self) -> ProtocolCodec {
        ProtocolCodec::UnsignedVarint(Some(1024))
    }
    async fn run(mut self: Box<Self>, mut service: TransportService) -> litep2p::Result<()> {
        let mut held = Vec::new();
        let mut cmds_open = true;
        loop {
            tokio::select! {
                ev = service.next() => match ev {
                    Some(TransportEvent::ConnectionEstablished { peer, endpoint }) => self.push(PEv::Est { peer, cid: format!("{:?}", endpoint.connection_id()) }),
                    Some(TransportEvent::ConnectionClosed { peer }) => self.push(PEv::Closed { peer }),
                    Some(TransportEvent::SubstreamOpened { peer, direction, substream, .. }) => {
                        self.push(PEv::SubOpened { peer, inbound: matches!(direction, Direction::Inbound) });
                        held.push(substream);
                    }
                    Some(TransportEvent::SubstreamOpenFailure { .. }) => self.push(PEv::SubFailed),
                    Some(TransportEvent::DialFailure { .. }) => self.push(PEv::DialFailure),
                    None => {
                        self.push(PEv::Exited("service-ended"));
                        return Ok(());
                    }
                },
                c = self.rx.recv(), if cmds_open => match c {
                    Some(PCmd::Open(p)) => {
                        let ok = service.open_substream(p).is_ok();
                        self.push(PEv::OpenCall { ok });
                    }
                    Some(PCmd::ForceClose(p)) => {
                        let ok = service.force_close(p).is_ok();
                        self.push(PEv::ForceCloseCall { ok });
                    }
                    Some(PCmd::DropSubstreams) => held.clear(),
                    Some(PCmd::Exit(err)) => {
                        drop(held);
                        if err {
                            self.push(PEv::Exited("returned-err"));
                            return Err(litep2p::Error::Other("verif: protocol gives up".into()));
                        }
                        self.push(PEv::Exited("returned-ok"));
                        return Ok(());
                    }
                    None => cmds_open = false,
                },
            }
        }
    }
}

// ---------------------------------------------------------------------------------------------
// scenarios
// ---------------------------------------------------------------------------------------------

#[derive(Clone, Copy, Debug, Hash, PartialEq)]
enum Shutdown {
    UserOk(usize),
    UserErr(usize),
    DropNotif,
    DropRr,
}

impl Shutdown {
    fn tag(&self) -> &'static str {
        match self {
            Shutdown::UserOk(_) => "user-protocol-returned-ok",
            Shutdown::UserErr(_) => "user-protocol-returned-err",
            Shutdown::DropNotif => "notification-handle-dropped",
            Shutdown::DropRr => "request-response-handle-dropped",
        }
    }
}

#[derive(Clone, Copy, Debug, Hash, PartialEq)]
enum When {
    BeforeConnect,
    WhileConnected,
}

#[derive(Clone, Copy, Debug, Hash, PartialEq)]
enum Poke {
    None,
    /// the remote opens a substream of the protocol that was shut down
    Dead,
    /// the remote opens a substream of a protocol that is still running
    Live,
}

#[derive(Clone, Copy, Debug, Hash, PartialEq)]
enum Cause {
    /// the remote force-closes the connection (clean close from the other side)
    RemoteClose,
    /// the proxy resets both TCP connections
    NetRst,
    /// the proxy closes (FIN) / resets / corrupts at a byte offset after the handshake
    NetFaultAt { kind: u8, nut_to_remote: bool, offset: u64 },
    /// a local user protocol force-closes
    LocalForceClose(usize),
    /// nothing keeps the connection alive: keep-alive expiry
    Idle,
}

impl Cause {
    fn tag(&self) -> &'static str {
        match self {
            Cause::RemoteClose => "remote-close",
            Cause::NetRst => "network-reset",
            Cause::NetFaultAt { kind: 0, .. } => "network-reset-at-offset",
            Cause::NetFaultAt { kind: 1, .. } => "network-fin-at-offset",
            Cause::NetFaultAt { .. } => "network-corruption-at-offset",
            Cause::LocalForceClose(_) => "local-force-close",
            Cause::Idle => "idle-expiry",
        }
    }
}

#[derive(Clone, Copy, Debug, Hash, PartialEq)]
enum Pre {
    /// the NUT's user protocol u opens k substreams
    NutOpens(usize, usize),
    RemoteOpens(usize, usize),
    /// the remote sends a request (answered by the NUT if its handle is alive)
    RemoteRequest,
    RemoteNotifOpen,
}

#[derive(Clone, Debug, Hash)]
struct Scen {
    seed: u64,
    via_proxy: bool,
    nut_dials: bool,
    shutdown: Option<(Shutdown, When)>,
    poke: Poke,
    pre: Vec<Pre>,
    /// one cause per cycle
    causes: Vec<Cause>,
    chaos_pct: u8,
    proxy_delay_ms: u64,
}

impl Scen {
    fn to_json(&self) -> Value {
        json!({"gen_seed": self.seed, "via_proxy": self.via_proxy, "nut_dials": self.nut_dials,
            "shutdown": self.shutdown.map(|(s, w)| format!("{s:?}/{w:?}")), "poke": format!("{:?}", self.poke),
            "pre": self.pre.iter().map(|p| format!("{p:?}")).collect::<Vec<_>>(),
            "causes": self.causes.iter().map(|c| format!("{c:?}")).collect::<Vec<_>>(),
            "chaos_pct": self.chaos_pct, "proxy_delay_ms": self.proxy_delay_ms, "directed": self.seed >> 56 == 0xD1})
    }
    fn keep_alive(&self) -> Duration {
        if self.causes.iter().any(|c| *c == Cause::Idle) {
            Duration::from_millis(700)
        } else {
            Duration::from_secs(20)
        }
    }
}

fn gen(rng: &mut Rng) -> Scen {
    let via_proxy = rng.chance(0.6);
    let ncycles = rng.range(1, 3);
    let causes: Vec<Cause> = (0..ncycles)
        .map(|_| loop {
            let c = match rng.usize(8) {
                0 | 1 => Cause::RemoteClose,
                2 => Cause::NetRst,
                3 | 4 => Cause::NetFaultAt { kind: rng.usize(3) as u8, nut_to_remote: rng.chance(0.5), offset: rng.range(900, 2600) as u64 },
                5 | 6 => Cause::LocalForceClose(rng.usize(2)),
                _ => Cause::Idle,
            };
            if !via_proxy && matches!(c, Cause::NetRst | Cause::NetFaultAt { .. }) {
                continue;
            }
            break c;
        })
        .collect();
    let shutdown = if rng.chance(0.65) {
        let k = match rng.usize(4) {
            0 => Shutdown::UserOk(rng.usize(2)),
            1 => Shutdown::UserErr(rng.usize(2)),
            2 => Shutdown::DropNotif,
            _ => Shutdown::DropRr,
        };
        Some((k, if rng.chance(0.5) { When::BeforeConnect } else { When::WhileConnected }))
    } else {
        None
    };
    let poke = if shutdown.is_some() { *rng.pick(&[Poke::None, Poke::Dead, Poke::Dead, Poke::Live]) } else { Poke::None };
    let npre = rng.usize(4);
    let pre: Vec<Pre> = (0..npre)
        .map(|_| match rng.usize(6) {
            0 | 1 => Pre::NutOpens(rng.usize(2), rng.range(1, 4)),
            2 | 3 => Pre::RemoteOpens(rng.usize(2), rng.range(1, 4)),
            4 => Pre::RemoteRequest,
            _ => Pre::RemoteNotifOpen,
        })
        .collect();
    let pre: Vec<Pre> = if causes.iter().any(|c| *c == Cause::Idle) { pre.into_iter().filter(|p| *p != Pre::RemoteNotifOpen).collect() } else { pre };
    Scen {
        seed: 0,
        via_proxy,
        nut_dials: rng.chance(0.5),
        shutdown,
        poke,
        pre,
        causes,
        chaos_pct: *rng.pick(&[0u8, 5, 20]),
        proxy_delay_ms: *rng.pick(&[0u64, 0, 1, 5]),
    }
}

fn scen_from_seed(gs: u64) -> Scen {
    if gs >> 56 == 0xD1 {
        return directed((gs & 0xffff) as usize, gs);
    }
    let mut g = Rng::new(gs);
    let mut s = gen(&mut g);
    s.seed = gs;
    s
}

/// The directed grid: every shutdown kind x moment x poke, with a plain cause afterwards.
const GRID: usize = 8 * 2 * 3;
fn directed(i: usize, gs: u64) -> Scen {
    let kinds = [
        Shutdown::UserOk(0),
        Shutdown::UserOk(1),
        Shutdown::UserErr(0),
        Shutdown::UserErr(1),
        Shutdown::DropNotif,
        Shutdown::DropRr,
        Shutdown::DropNotif,
        Shutdown::DropRr,
    ];
    let k = kinds[i % 8];
    let when = [When::BeforeConnect, When::WhileConnected][(i / 8) % 2];
    let poke = [Poke::None, Poke::Dead, Poke::Live][(i / 16) % 3];
    let via_proxy = i % 8 >= 6 || i % 3 == 0;
    Scen {
        seed: gs,
        via_proxy,
        nut_dials: i % 2 == 0,
        shutdown: Some((k, when)),
        poke,
        pre: if i % 4 == 1 { vec![Pre::NutOpens(1, 1)] } else { vec![] },
        causes: vec![if via_proxy { Cause::NetRst } else { Cause::RemoteClose }, Cause::RemoteClose],
        chaos_pct: 0,
        proxy_delay_ms: 0,
    }
}

// ---------------------------------------------------------------------------------------------
// one node with its protocols
// ---------------------------------------------------------------------------------------------

pub(crate) struct Side {
    pub(crate) node: Node,
    pub(crate) plog: PLog,
    pub(crate) probes: Vec<Option<mpsc::UnboundedSender<PCmd>>>,
    pub(crate) notif: Option<mpsc::UnboundedSender<NCmd>>,
    pub(crate) rr: Option<mpsc::UnboundedSender<RCmd>>,
    /// requests answered by this side's request-response user task
    rr_answered: Arc<std::sync::atomic::AtomicU64>,
    rr_responses: Arc<std::sync::atomic::AtomicU64>,
}

pub(crate) enum NCmd {
    Open(PeerId),
}
pub(crate) enum RCmd {
    Request(PeerId),
}

fn spawn_side(cfg: &NodeCfg, exec: &ChaosExecutor) -> Result<Side, String> {
    spawn_side_with(cfg, exec, None, false)
}

/// `ping`: enable the ping protocol with that interval; `identify`: enable identify.
pub(crate) fn spawn_side_with(cfg: &NodeCfg, exec: &ChaosExecutor, ping: Option<Duration>, identify: bool) -> Result<Side, String> {
    let plog: PLog = Default::default();
    let mut builder = cfg.builder(exec);
    if let Some(iv) = ping {
        let (pc, mut pev) = litep2p::protocol::libp2p::ping::ConfigBuilder::new().with_ping_interval(iv).build();
        builder = builder.with_libp2p_ping(pc);
        tokio::spawn(async move { while pev.next().await.is_some() {} });
    }
    if identify {
        let (ic, mut iev) = litep2p::protocol::libp2p::identify::Config::new("/verif/1".to_string(), Some("lpverif".to_string()));
        builder = builder.with_libp2p_identify(ic);
        tokio::spawn(async move { while iev.next().await.is_some() {} });
    }
    let mut probes = Vec::new();
    for idx in 0..2 {
        let (tx, rx) = mpsc::unbounded_channel();
        builder = builder.with_user_protocol(Box::new(Probe { idx, log: plog.clone(), rx }));
        probes.push(Some(tx));
    }
    let (nc, nh) = NotifConfig::new(ProtocolName::from(NPROTO), 1024, vec![1, 2, 3], Vec::new(), true, 64, 64, false);
    let (rc, rh) = RrBuilder::new(ProtocolName::from(RPROTO)).with_max_size(1024).with_timeout(Duration::from_secs(3)).build();
    builder = builder.with_notification_protocol(nc).with_request_response_protocol(rc);
    let node = Node::spawn(builder)?;
    // the user tasks that own the handles: dropping the command sender drops the handle
    let (ntx, mut nrx) = mpsc::unbounded_channel::<NCmd>();
    tokio::spawn(async move {
        let mut nh: NotificationHandle = nh;
        loop {
            tokio::select! {
                e = nh.next() => match e {
                    Some(NotificationEvent::ValidateSubstream { peer, .. }) => nh.send_validation_result(peer, ValidationResult::Accept),
                    Some(_) => {}
                    None => return,
                },
                c = nrx.recv() => match c {
                    Some(NCmd::Open(p)) => { let _ = nh.open_substream(p).await; }
                    None => return, // handle dropped here
                },
            }
        }
    });
    let (rtx, mut rrx) = mpsc::unbounded_channel::<RCmd>();
    let rr_answered: Arc<std::sync::atomic::AtomicU64> = Default::default();
    let rr_responses: Arc<std::sync::atomic::AtomicU64> = Default::default();
    let (ra, rs) = (rr_answered.clone(), rr_responses.clone());
    tokio::spawn(async move {
        let mut rh: RequestResponseHandle = rh;
        loop {
            tokio::select! {
                e = rh.next() => match e {
                    Some(RequestResponseEvent::RequestReceived { request_id, request, .. }) => {
                        ra.fetch_add(1, std::sync::atomic::Ordering::Relaxed);
                        rh.send_response(request_id, request);
                    }
                    Some(RequestResponseEvent::ResponseReceived { .. }) => { rs.fetch_add(1, std::sync::atomic::Ordering::Relaxed); }
                    Some(_) => {}
                    None => return,
                },
                c = rrx.recv() => match c {
                    Some(RCmd::Request(p)) => { let _ = rh.send_request(p, vec![7, 7, 7], DialOptions::Reject).await; }
                    None => return,
                },
            }
        }
    });
    Ok(Side { node, plog, probes, notif: Some(ntx), rr: Some(rtx), rr_answered, rr_responses })
}

impl Side {
    pub(crate) fn probe_alive(&self, u: usize) -> bool {
        self.probes[u].is_some()
    }
    pub(crate) fn send(&self, u: usize, c: PCmd) {
        if let Some(tx) = &self.probes[u] {
            let _ = tx.send(c);
        }
    }
    pub(crate) fn pcount(&self, f: impl Fn(usize, &PEv) -> bool) -> usize {
        self.plog.lock().unwrap().iter().filter(|(_, _, i, e)| f(*i, e)).count()
    }
}

// ---------------------------------------------------------------------------------------------
// orchestration
// ---------------------------------------------------------------------------------------------

#[derive(Clone, Debug)]
enum Mark {
    /// a connection attempt of this cycle started
    ConnectStart { cycle: usize },
    /// the NUT application and the remote application saw it established
    Connected { cycle: usize, nut_saw: bool, remote_saw: bool },
    ShutdownDone,
    Poked { dead: bool },
    /// a substream open from a surviving NUT protocol after the shutdown (+ poke): outcome
    SurvivorUse { u: usize, opened: bool, closed_reported: bool },
    CauseApplied { cycle: usize },
    /// the remote application saw the connection closed / the proxy reset it
    GroundTruthGone { cycle: usize, by: &'static str },
    /// end of the bounded-progress window for this cycle's close
    WindowEnd { cycle: usize },
    Redial { cycle: usize, result: Result<(), String>, outcome: Option<&'static str> },
    Abort(String),
}

struct RunOut {
    setup_error: Option<String>,
    marks: Vec<(u64, Mark)>,
    app: Vec<(u64, Instant, NodeEvent)>,
    remote_app: Vec<(u64, Instant, NodeEvent)>,
    plog: Vec<(u64, Instant, usize, PEv)>,
    remote: Option<PeerId>,
    window: Duration,
    max_lag_ms: u64,
    panics: Vec<String>,
    /// which NUT user protocols were running at the end
    probes_alive: [bool; 2],
    rr_alive: bool,
    rr_roundtrip_ok: Option<bool>,
}

pub(crate) async fn wait_until(deadline: Instant, mut f: impl FnMut() -> bool) -> bool {
    loop {
        if f() {
            return true;
        }
        if Instant::now() >= deadline {
            return false;
        }
        tokio::time::sleep(Duration::from_millis(4)).await;
    }
}

pub(crate) fn est_count(n: &Node, p: &PeerId) -> usize {
    n.events.lock().unwrap().iter().filter(|(_, _, e)| matches!(e, NodeEvent::Established { peer, .. } if peer == p)).count()
}
pub(crate) fn closed_count(n: &Node, p: &PeerId) -> usize {
    n.events.lock().unwrap().iter().filter(|(_, _, e)| matches!(e, NodeEvent::Closed { peer, .. } if peer == p)).count()
}
pub(crate) fn dial_failures(n: &Node) -> usize {
    n.events.lock().unwrap().iter().filter(|(_, _, e)| matches!(e, NodeEvent::DialFailure { .. } | NodeEvent::ListDialFailures { .. })).count()
}

async fn run_scenario(s: Scen, exec: ChaosExecutor, lag: LagMonitor) -> RunOut {
    let keep_alive = s.keep_alive();
    let window = Duration::from_secs(6) + keep_alive.min(Duration::from_secs(1)) * 4;
    let mut out = RunOut {
        setup_error: None,
        marks: vec![],
        app: vec![],
        remote_app: vec![],
        plog: vec![],
        remote: None,
        window,
        max_lag_ms: 0,
        panics: vec![],
        probes_alive: [true, true],
        rr_alive: true,
        rr_roundtrip_ok: None,
    };
    let mut rng = Rng::new(s.seed ^ 0xC07);
    let mk_cfg = |seed: u64| {
        let mut cfg = NodeCfg::new(seed);
        cfg.chaos = s.chaos_pct as f64 / 100.0;
        cfg.connection_open_timeout = Duration::from_millis(1500);
        cfg.substream_open_timeout = Duration::from_millis(1500);
        cfg.keep_alive = keep_alive;
        cfg
    };
    let (mut nut, remote) = match (spawn_side(&mk_cfg(rng.u64()), &exec), spawn_side(&mk_cfg(rng.u64()), &exec)) {
        (Ok(a), Ok(b)) => (a, b),
        (a, b) => {
            out.setup_error = Some(format!("spawn: {:?} {:?}", a.err(), b.err()));
            return out;
        }
    };
    let rpeer = remote.node.peer;
    let npeer = nut.node.peer;
    out.remote = Some(rpeer);
    // ---- routes: the NUT reaches the remote (and the remote the NUT) directly or through one proxy each
    let plan0 = ProxyPlan { delay: Duration::from_millis(s.proxy_delay_ms), chunk: 0, fault: Fault::None };
    let (proxy_to_remote, proxy_to_nut) = if s.via_proxy {
        match (Proxy::start(remote.node.socket, plan0.clone()).await, Proxy::start(nut.node.socket, plan0.clone()).await) {
            (Ok(a), Ok(b)) => (Some(a), Some(b)),
            _ => {
                out.setup_error = Some("proxy".into());
                return out;
            }
        }
    } else {
        (None, None)
    };
    let remote_addr = match &proxy_to_remote {
        Some(p) => tcp_multiaddr(p.addr, Some(rpeer)),
        None => remote.node.addr.clone(),
    };
    let nut_addr = match &proxy_to_nut {
        Some(p) => tcp_multiaddr(p.addr, Some(npeer)),
        None => nut.node.addr.clone(),
    };
    nut.node.add_known(rpeer, vec![remote_addr.clone()]).await;
    let mark = |out: &mut RunOut, m: Mark| out.marks.push((tick(), m));

    // ---- shutdown of a local protocol --------------------------------------------------------------
    let do_shutdown = |nut: &mut Side, out: &mut RunOut, k: Shutdown| {
        match k {
            Shutdown::UserOk(u) => {
                nut.send(u, PCmd::Exit(false));
                nut.probes[u] = None;
                out.probes_alive[u] = false;
            }
            Shutdown::UserErr(u) => {
                nut.send(u, PCmd::Exit(true));
                nut.probes[u] = None;
                out.probes_alive[u] = false;
            }
            Shutdown::DropNotif => nut.notif = None,
            Shutdown::DropRr => {
                nut.rr = None;
                out.rr_alive = false;
            }
        }
    };

    if let Some((k, When::BeforeConnect)) = s.shutdown {
        do_shutdown(&mut nut, &mut out, k);
        // let the protocol task notice and exit
        tokio::time::sleep(Duration::from_millis(150)).await;
        mark(&mut out, Mark::ShutdownDone);
    }

    let ncycles = s.causes.len();
    let mut connected = false; // a connection of the current cycle is believed to be up (from a redial)
    'cycles: for cycle in 0..ncycles {
        let cause = s.causes[cycle];
        // ---- connect ---------------------------------------------------------------------------------
        let est_before = est_count(&nut.node, &rpeer);
        let rest_before = est_count(&remote.node, &npeer);
        let closed_before = closed_count(&nut.node, &rpeer);
        let rclosed_before = closed_count(&remote.node, &npeer);
        // the fault plan applies to the connection made now
        if let Cause::NetFaultAt { kind, nut_to_remote, offset } = cause {
            let (p, c2s) = if s.nut_dials || connected { (&proxy_to_remote, nut_to_remote) } else { (&proxy_to_nut, !nut_to_remote) };
            if let Some(p) = p {
                let fault = match kind {
                    0 => Fault::RstAt { client_to_server: c2s, offset },
                    1 => Fault::FinAt { client_to_server: c2s, offset },
                    _ => Fault::CorruptAt { client_to_server: c2s, offset },
                };
                p.set_plan(ProxyPlan { fault, ..plan0.clone() });
            }
        } else {
            for p in [&proxy_to_remote, &proxy_to_nut].into_iter().flatten() {
                p.set_plan(plan0.clone());
            }
        }
        if !connected {
            mark(&mut out, Mark::ConnectStart { cycle });
            let r = if s.nut_dials { nut.node.dial(rpeer).await } else { remote.node.dial_address(nut_addr.clone()).await };
            if let Err(e) = r {
                mark(&mut out, Mark::Abort(format!("connect call failed in cycle {cycle}: {e}")));
                break 'cycles;
            }
            let dl = Instant::now() + window;
            let ok = wait_until(dl, || est_count(&nut.node, &rpeer) > est_before && est_count(&remote.node, &npeer) > rest_before).await;
            let (n_saw, r_saw) = (est_count(&nut.node, &rpeer) > est_before, est_count(&remote.node, &npeer) > rest_before);
            mark(&mut out, Mark::Connected { cycle, nut_saw: n_saw, remote_saw: r_saw });
            if !ok {
                break 'cycles;
            }
        } else {
            mark(&mut out, Mark::Connected { cycle, nut_saw: true, remote_saw: true });
        }
        // give the protocols a moment to see the connection before using it
        let dl = Instant::now() + Duration::from_secs(3);
        let want: Vec<usize> = (0..2).filter(|u| nut.probe_alive(*u)).collect();
        let base_est: Vec<usize> = (0..2).map(|u| nut.pcount(|i, e| i == u && matches!(e, PEv::Est { peer, .. } if *peer == rpeer))).collect();
        let _ = base_est;
        wait_until(dl, || {
            want.iter().all(|u| {
                let est = nut.pcount(|i, e| i == *u && matches!(e, PEv::Est { peer, .. } if *peer == rpeer));
                let cl = nut.pcount(|i, e| i == *u && matches!(e, PEv::Closed { peer } if *peer == rpeer));
                est > cl
            })
        })
        .await;
        // ---- activity -----------------------------------------------------------------------------------
        for p in &s.pre {
            match *p {
                Pre::NutOpens(u, k) => (0..k).for_each(|_| nut.send(u, PCmd::Open(rpeer))),
                Pre::RemoteOpens(u, k) => (0..k).for_each(|_| remote.send(u, PCmd::Open(npeer))),
                Pre::RemoteRequest => {
                    if let Some(tx) = &remote.rr {
                        let _ = tx.send(RCmd::Request(npeer));
                    }
                }
                Pre::RemoteNotifOpen => {
                    if let Some(tx) = &remote.notif {
                        let _ = tx.send(NCmd::Open(npeer));
                    }
                }
            }
        }
        if !s.pre.is_empty() {
            tokio::time::sleep(Duration::from_millis(rng.range(0, 120) as u64)).await;
        }
        // ---- shutdown while connected, poke ---------------------------------------------------------------
        if cycle == 0 {
            if let Some((k, When::WhileConnected)) = s.shutdown {
                do_shutdown(&mut nut, &mut out, k);
                tokio::time::sleep(Duration::from_millis(150)).await;
                mark(&mut out, Mark::ShutdownDone);
            }
        }
        if let Some((k, _)) = s.shutdown {
            match s.poke {
                Poke::None => {}
                Poke::Dead => {
                    match k {
                        Shutdown::UserOk(u) | Shutdown::UserErr(u) => remote.send(u, PCmd::Open(npeer)),
                        Shutdown::DropNotif => {
                            if let Some(tx) = &remote.notif {
                                let _ = tx.send(NCmd::Open(npeer));
                            }
                        }
                        Shutdown::DropRr => {
                            if let Some(tx) = &remote.rr {
                                let _ = tx.send(RCmd::Request(npeer));
                            }
                        }
                    }
                    mark(&mut out, Mark::Poked { dead: true });
                    tokio::time::sleep(Duration::from_millis(250)).await;
                }
                Poke::Live => {
                    let live = (0..2).find(|u| nut.probe_alive(*u)).unwrap_or(0);
                    remote.send(live, PCmd::Open(npeer));
                    mark(&mut out, Mark::Poked { dead: false });
                    tokio::time::sleep(Duration::from_millis(250)).await;
                }
            }
            // ---- a surviving protocol uses the existing connection ------------------------------------------
            // (not while a network fault is armed on this connection: it may strike the open itself)
            if let Some(u) = (0..2).find(|u| nut.probe_alive(*u)).filter(|_| !matches!(cause, Cause::NetFaultAt { .. })) {
                let opened_before = nut.pcount(|i, e| i == u && matches!(e, PEv::SubOpened { inbound: false, .. }));
                let closed_b = nut.pcount(|i, e| i == u && matches!(e, PEv::Closed { peer } if *peer == rpeer));
                nut.send(u, PCmd::Open(rpeer));
                let dl = Instant::now() + Duration::from_secs(4);
                wait_until(dl, || {
                    nut.pcount(|i, e| i == u && matches!(e, PEv::SubOpened { inbound: false, .. })) > opened_before
                        || nut.pcount(|i, e| i == u && matches!(e, PEv::Closed { peer } if *peer == rpeer)) > closed_b
                })
                .await;
                let opened = nut.pcount(|i, e| i == u && matches!(e, PEv::SubOpened { inbound: false, .. })) > opened_before;
                let closed_reported = nut.pcount(|i, e| i == u && matches!(e, PEv::Closed { peer } if *peer == rpeer)) > closed_b;
                mark(&mut out, Mark::SurvivorUse { u, opened, closed_reported });
            }
        }
        // ---- the cause strikes ------------------------------------------------------------------------------
        mark(&mut out, Mark::CauseApplied { cycle });
        let already_gone = closed_count(&remote.node, &npeer) > rclosed_before;
        let mut by: &'static str = "remote-application-saw-closed";
        if !already_gone {
            match cause {
                Cause::RemoteClose => {
                    let u = 0;
                    remote.send(u, PCmd::ForceClose(npeer));
                }
                Cause::NetRst => {
                    for p in [&proxy_to_remote, &proxy_to_nut].into_iter().flatten() {
                        p.kill_all();
                    }
                    by = "proxy-reset";
                }
                Cause::NetFaultAt { .. } => {
                    // traffic until the offset is reached; if it never is, reset
                    let fired = |a: &Option<Proxy>, b: &Option<Proxy>| {
                        [a, b].into_iter().flatten().map(|p| p.stats.faults_fired.load(std::sync::atomic::Ordering::Relaxed)).sum::<u64>()
                    };
                    let f0 = fired(&proxy_to_remote, &proxy_to_nut);
                    let _ = f0;
                    for _ in 0..30 {
                        if closed_count(&remote.node, &npeer) > rclosed_before || closed_count(&nut.node, &rpeer) > closed_before {
                            break;
                        }
                        for u in 0..2 {
                            nut.send(u, PCmd::Open(rpeer));
                            remote.send(u, PCmd::Open(npeer));
                        }
                        tokio::time::sleep(Duration::from_millis(30)).await;
                    }
                    if !(closed_count(&remote.node, &npeer) > rclosed_before || closed_count(&nut.node, &rpeer) > closed_before) {
                        for p in [&proxy_to_remote, &proxy_to_nut].into_iter().flatten() {
                            p.kill_all();
                        }
                        by = "proxy-reset";
                    } else {
                        by = "proxy-fault-at-offset";
                    }
                }
                Cause::LocalForceClose(u) => {
                    let u = if nut.probe_alive(u) { u } else { 1 - u };
                    if nut.probe_alive(u) {
                        nut.send(u, PCmd::ForceClose(rpeer));
                    } else {
                        remote.send(0, PCmd::ForceClose(npeer));
                    }
                }
                Cause::Idle => {
                    for u in 0..2 {
                        nut.send(u, PCmd::DropSubstreams);
                        remote.send(u, PCmd::DropSubstreams);
                    }
                }
            }
        }
        // ---- ground truth: the remote application reports the connection closed (or the proxy reset it)
        let dl = Instant::now() + window + keep_alive.min(Duration::from_secs(2)) * 2;
        let gone = if by == "proxy-reset" { true } else { wait_until(dl, || closed_count(&remote.node, &npeer) > rclosed_before).await };
        if !gone {
            mark(&mut out, Mark::Abort(format!("cycle {cycle}: the remote never saw the connection end after {cause:?} (no ground truth)")));
            break 'cycles;
        }
        mark(&mut out, Mark::GroundTruthGone { cycle, by });
        // ---- bounded-progress window for the NUT ----------------------------------------------------------------
        let dl = Instant::now() + window;
        let want: Vec<usize> = (0..2).filter(|u| nut.probe_alive(*u)).collect();
        wait_until(dl, || {
            closed_count(&nut.node, &rpeer) > closed_before
                && want.iter().all(|u| {
                    let est = nut.pcount(|i, e| i == *u && matches!(e, PEv::Est { peer, .. } if *peer == rpeer));
                    let cl = nut.pcount(|i, e| i == *u && matches!(e, PEv::Closed { peer } if *peer == rpeer));
                    cl >= est
                })
        })
        .await;
        // a little longer, to catch duplicates
        tokio::time::sleep(Duration::from_millis(120)).await;
        mark(&mut out, Mark::WindowEnd { cycle });
        let _ = est_before;
        // ---- the peer can be dialed again ------------------------------------------------------------------------
        for p in [&proxy_to_remote, &proxy_to_nut].into_iter().flatten() {
            p.set_plan(plan0.clone());
        }
        let est_b = est_count(&nut.node, &rpeer);
        let rest_at_redial = est_count(&remote.node, &npeer);
        let df_b = dial_failures(&nut.node);
        let r = nut.node.dial(rpeer).await;
        let mut outcome = None;
        if r.is_ok() {
            let dl = Instant::now() + window;
            wait_until(dl, || est_count(&nut.node, &rpeer) > est_b || dial_failures(&nut.node) > df_b).await;
            if est_count(&nut.node, &rpeer) > est_b {
                outcome = Some("established");
            } else if dial_failures(&nut.node) > df_b {
                outcome = Some("dial-failure");
            }
        }
        connected = outcome == Some("established");
        mark(&mut out, Mark::Redial { cycle, result: r, outcome });
        if connected {
            // let the remote see it too before the next cycle starts counting
            let dl = Instant::now() + Duration::from_secs(3);
            wait_until(dl, || est_count(&remote.node, &npeer) > rest_at_redial).await;
        }
    }
    // ---- a request-response round trip on the surviving protocol (clause 4), if connected at the end
    if connected && out.rr_alive {
        if let Some(tx) = &remote.rr {
            let before = remote.rr_responses.load(std::sync::atomic::Ordering::Relaxed);
            let _ = tx.send(RCmd::Request(npeer));
            let dl = Instant::now() + Duration::from_secs(5);
            let ok = wait_until(dl, || remote.rr_responses.load(std::sync::atomic::Ordering::Relaxed) > before).await;
            out.rr_roundtrip_ok = Some(ok);
        }
    }
    let _ = &nut.rr_answered;
    out.app = nut.node.events_snapshot();
    out.remote_app = remote.node.events_snapshot();
    out.plog = nut.plog.lock().unwrap().clone();
    out.max_lag_ms = lag.peek_max_ms();
    out
}

// ---------------------------------------------------------------------------------------------
// offline oracle
// ---------------------------------------------------------------------------------------------

fn check(rep: &mut Report, s: &Scen, o: &RunOut) {
    let replay = s.to_json();
    if o.setup_error.is_some() {
        rep.hit("scenario_setup_failed");
        return;
    }
    rep.hit("scenarios_run");
    for p in &o.panics {
        rep.violation(format!("C07/panic/{}", crate::common::panic_site(p)), p.clone(), replay.clone());
    }
    let Some(rpeer) = o.remote else { return };
    let starved = o.max_lag_ms > 1000;
    let sd_tag = s.shutdown.map(|(k, _)| k.tag()).unwrap_or("no-protocol-shutdown");
    let shutdown_tick = o.marks.iter().find(|(_, m)| matches!(m, Mark::ShutdownDone)).map(|(t, _)| *t);
    let mut viol = |rep: &mut Report, sig: String, detail: String| {
        if starved {
            rep.inconclusive(format!("runtime starved (timer lag {} ms): {sig}", o.max_lag_ms));
        } else {
            rep.violation(sig, detail, replay.clone());
        }
    };
    // ---- grammar of the application stream for the remote peer: never closed before established,
    // never closed twice for one connected period
    {
        let mut open = 0usize;
        for (_, _, e) in &o.app {
            match e {
                NodeEvent::Established { peer, .. } if *peer == rpeer => {
                    open += 1;
                    rep.hit("app_established_events");
                }
                NodeEvent::Closed { peer, .. } if *peer == rpeer => {
                    rep.hit("app_closed_events");
                    if open == 0 {
                        viol(rep, "C07/application-closed-without-established".into(), format!("ConnectionClosed for {rpeer} with no connection reported open"));
                    }
                    open = 0;
                }
                _ => {}
            }
        }
    }
    // ---- grammar of every protocol stream
    for u in 0..2 {
        let mut open = false;
        for (_, _, i, e) in &o.plog {
            if *i != u {
                continue;
            }
            match e {
                PEv::Est { peer, .. } if *peer == rpeer => {
                    rep.hit("protocol_established_events");
                    if open {
                        viol(rep, "C07/protocol-established-twice-without-close".into(), format!("user protocol {u}"));
                    }
                    open = true;
                }
                PEv::Closed { peer } if *peer == rpeer => {
                    rep.hit("protocol_closed_events");
                    if !open {
                        viol(rep, "C07/protocol-closed-without-established".into(), format!("user protocol {u}"));
                    }
                    open = false;
                }
                _ => {}
            }
        }
    }
    // ---- per cycle -------------------------------------------------------------------------------------
    let tick_of = |pred: &dyn Fn(&Mark) -> bool| o.marks.iter().find(|(_, m)| pred(m)).map(|(t, _)| *t);
    for (_, m) in &o.marks {
        if let Mark::Abort(why) = m {
            rep.hit("scenario_aborted");
            rep.count("aborted", 1);
            let _ = why;
        }
    }
    for cycle in 0..s.causes.len() {
        let cause = s.causes[cycle];
        let Some((_, Mark::Connected { nut_saw, remote_saw, .. })) = o.marks.iter().find(|(_, m)| matches!(m, Mark::Connected { cycle: c, .. } if *c == cycle)) else {
            continue;
        };
        let after_shutdown = shutdown_tick.is_some() && tick_of(&|m| matches!(m, Mark::ConnectStart { cycle: c } if *c == cycle)).map(|t| t > shutdown_tick.unwrap()).unwrap_or(false);
        if !*nut_saw {
            // clause 4: the shutdown of one protocol must not prevent new connections
            if after_shutdown && !matches!(cause, Cause::NetFaultAt { .. }) {
                viol(
                    rep,
                    format!("C07/new-connection-not-established-after-protocol-shutdown/{sd_tag}"),
                    format!("cycle {cycle}: after the shutdown ({:?}) a fault-free connection attempt was not reported established by the node within {:?} (remote saw established: {remote_saw})", s.shutdown, o.window),
                );
            } else if o.marks.iter().any(|(_, m)| matches!(m, Mark::ConnectStart { cycle: c } if *c == cycle)) {
                rep.hit("connect_failed_without_shutdown");
            }
            continue;
        }
        rep.hit("cycles_connected");
        if after_shutdown {
            rep.hit("connections_after_protocol_shutdown");
        }
        let t_conn = tick_of(&|m| matches!(m, Mark::Connected { cycle: c, .. } if *c == cycle)).unwrap_or(0);
        let Some(t_gone) = tick_of(&|m| matches!(m, Mark::GroundTruthGone { cycle: c, .. } if *c == cycle)) else { continue };
        let Some(t_end) = tick_of(&|m| matches!(m, Mark::WindowEnd { cycle: c } if *c == cycle)) else { continue };
        let t_start = tick_of(&|m| matches!(m, Mark::ConnectStart { cycle: c } if *c == cycle))
            .or_else(|| tick_of(&|m| matches!(m, Mark::WindowEnd { cycle: c } if *c + 1 == cycle)))
            .unwrap_or(0);
        let _ = (t_conn, t_gone);
        rep.hit("terminations_checked");
        rep.count(match cause.tag() {
            "remote-close" => "cause_remote_close",
            "network-reset" => "cause_network_reset",
            "local-force-close" => "cause_local_force_close",
            "idle-expiry" => "cause_idle_expiry",
            _ => "cause_network_fault_at_offset",
        }, 1);
        // the application: exactly one closed event in (t_start, t_end]
        let app_closed = o.app.iter().filter(|(t, _, e)| *t > t_start && *t <= t_end && matches!(e, NodeEvent::Closed { peer, .. } if *peer == rpeer)).count();
        let app_est = o.app.iter().filter(|(t, _, e)| *t > t_start && *t <= t_end && matches!(e, NodeEvent::Established { peer, .. } if *peer == rpeer)).count();
        let _ = app_est;
        if app_closed == 0 {
            viol(
                rep,
                format!("C07/application-never-told-closed/{}/{sd_tag}", cause.tag()),
                format!("cycle {cycle}: the connection to {rpeer} ended ({cause:?}; ground truth: remote/proxy), no ConnectionClosed within {:?}; poke {:?}", o.window, s.poke),
            );
        } else {
            rep.hit("application_told_closed_exactly_once");
        }
        // protocols that were running during the whole cycle and saw the connection
        for u in 0..2 {
            if !o.probes_alive[u] {
                continue;
            }
            let est = o.plog.iter().filter(|(t, _, i, e)| *i == u && *t > t_start && *t <= t_end && matches!(e, PEv::Est { peer, .. } if *peer == rpeer)).count();
            let cl = o.plog.iter().filter(|(t, _, i, e)| *i == u && *t > t_start && *t <= t_end && matches!(e, PEv::Closed { peer } if *peer == rpeer)).count();
            // a redial-established connection of the previous cycle was announced before t_start
            let carried = o.plog.iter().filter(|(t, _, i, e)| *i == u && *t <= t_start && matches!(e, PEv::Est { peer, .. } if *peer == rpeer)).count()
                > o.plog.iter().filter(|(t, _, i, e)| *i == u && *t <= t_start && matches!(e, PEv::Closed { peer } if *peer == rpeer)).count();
            let est = est + carried as usize;
            if est == 0 {
                if after_shutdown || shutdown_tick.is_some() {
                    viol(
                        rep,
                        format!("C07/surviving-protocol-not-told-of-connection/{sd_tag}"),
                        format!("cycle {cycle}: user protocol {u} is running and never saw ConnectionEstablished for a connection the application saw"),
                    );
                } else {
                    viol(rep, "C07/protocol-not-told-of-connection".into(), format!("cycle {cycle}: user protocol {u}"));
                }
                continue;
            }
            if cl < est {
                viol(
                    rep,
                    format!("C07/protocol-never-told-closed/{}/{sd_tag}", cause.tag()),
                    format!("cycle {cycle}: user protocol {u} saw {est} established and {cl} closed events for {rpeer} by the end of the window ({:?}); poke {:?}", o.window, s.poke),
                );
            } else {
                rep.hit("protocol_told_closed_exactly_once");
            }
        }
        // the peer can be dialed again
        if let Some((_, Mark::Redial { result, outcome, .. })) = o.marks.iter().find(|(_, m)| matches!(m, Mark::Redial { cycle: c, .. } if *c == cycle)) {
            rep.hit("redials_checked");
            match (result, outcome) {
                (Err(e), _) if e.contains("AlreadyConnected") => viol(
                    rep,
                    format!("C07/peer-still-counts-as-connected/{}/{sd_tag}", cause.tag()),
                    format!("cycle {cycle}: dial({rpeer}) after the connection ended returned {e}"),
                ),
                (Err(e), _) => {
                    rep.hit("redial_refused_other");
                    let _ = e;
                }
                (Ok(()), None) => viol(
                    rep,
                    format!("C07/redial-without-outcome/{}/{sd_tag}", cause.tag()),
                    format!("cycle {cycle}: dial({rpeer}) returned Ok and neither ConnectionEstablished nor DialFailure followed within {:?}", o.window),
                ),
                (Ok(()), Some("established")) => rep.hit("redial_established"),
                (Ok(()), Some(_)) => {
                    // the path is fault free again: a failure means new connections are prevented
                    if shutdown_tick.is_some() {
                        viol(
                            rep,
                            format!("C07/new-connection-not-established-after-protocol-shutdown/{sd_tag}"),
                            format!("cycle {cycle}: redial over a fault-free path ended in a dial failure after the shutdown {:?}", s.shutdown),
                        );
                    } else {
                        rep.hit("redial_failed_without_shutdown");
                    }
                }
            }
        }
    }
    // ---- a surviving protocol can use the existing connection (or is told that it ended)
    for (_, m) in &o.marks {
        if let Mark::SurvivorUse { u, opened, closed_reported } = m {
            rep.hit("survivor_use_checks");
            if !*opened && !*closed_reported {
                viol(
                    rep,
                    format!("C07/surviving-protocol-cannot-use-connection/{sd_tag}/poke-{}", format!("{:?}", s.poke).to_lowercase()),
                    format!("user protocol {u} opened a substream after {:?}: neither SubstreamOpened nor ConnectionClosed within 4 s", s.shutdown),
                );
            } else if *opened {
                rep.hit("survivor_substream_opened");
            } else {
                rep.hit("survivor_told_closed_instead");
            }
        }
    }
    if let Some(ok) = o.rr_roundtrip_ok {
        rep.hit("final_request_response_roundtrips");
        if !ok {
            viol(rep, format!("C07/request-response-unusable-on-new-connection/{sd_tag}"), "the remote's request on the re-established connection got no response within 5 s".into());
        }
    }
}

pub fn run(ctx: &Ctx) -> Report {
    let mut rep = Report::new(
        "C07",
        "a case = one scenario on two real nodes (loopback TCP, optional fault proxy both ways): connect (either side dials), substream activity, optional shutdown of a local \
         protocol (user protocol returns Ok/Err, notification or request-response handle dropped) before or while connected, remote pokes the dead or a live protocol, the \
         connection ends by remote close / network reset / FIN, reset or corruption at a byte offset / local force-close / idle expiry, redial; 1-3 cycles; distinct by the full scenario",
    );
    rep.assume("bounded progress: closed reported within 6 s + 4 x min(keep-alive, 1 s) of the ground-truth end (remote application saw closed, or proxy reset); timer-lag canary");
    let workers = 2 + (ctx.seed as usize + ctx.shard) % 3;
    let rt = tokio::runtime::Builder::new_multi_thread().worker_threads(workers).enable_all().build().expect("runtime");
    if let Some(path) = &ctx.replay {
        let v: Value = serde_json::from_slice(&std::fs::read(path).expect("replay")).expect("json");
        if v["replay"]["directed"] == "close-order" {
            crate::c08::directed_close_order(&mut rep, "C07", v["replay"]["seed"].as_u64().unwrap_or(1));
            return rep;
        }
    } else {
        // "protocols before the manager": decided on the real ProtocolSet with a full protocol channel
        // (scripted world, manual polling) — not observable between consumer tasks of real nodes
        crate::c08::directed_close_order(&mut rep, "C07", ctx.rng("c07-order").u64());
    }
    let scenarios: Vec<Scen> = if let Some(path) = &ctx.replay {
        let v: Value = serde_json::from_slice(&std::fs::read(path).expect("replay")).expect("json");
        let gs = v["replay"]["gen_seed"].as_u64().unwrap_or(1);
        let s = scen_from_seed(gs);
        vec![s.clone(), s]
    } else {
        let mut rng = ctx.rng("c07");
        let n = ctx.pick(480, 9600) / ctx.nshards;
        let mut v: Vec<Scen> = (0..GRID).filter(|i| i % ctx.nshards == ctx.shard).map(|i| scen_from_seed((0xD1u64 << 56) | i as u64)).collect();
        v.extend((0..n).map(|_| scen_from_seed(rng.u64() >> 8)));
        v
    };
    let results: Vec<(Scen, RunOut)> = rt.block_on(async {
        let lag = LagMonitor::start();
        let exec = ChaosExecutor::new(tokio::runtime::Handle::current(), ctx.seed, 0.05);
        let conc = 10usize;
        let mut out = Vec::new();
        let mut it = scenarios.into_iter();
        let mut running = futures::stream::FuturesUnordered::new();
        loop {
            while running.len() < conc {
                match it.next() {
                    Some(s) => {
                        let (e, l) = (exec.clone(), lag.clone());
                        running.push(tokio::spawn(async move {
                            let o = run_scenario(s.clone(), e, l).await;
                            (s, o)
                        }));
                    }
                    None => break,
                }
            }
            match running.next().await {
                Some(Ok(x)) => out.push(x),
                Some(Err(_)) => {}
                None => break,
            }
        }
        let panics = exec.panics.lock().unwrap().clone();
        if let Some((_, o)) = out.last_mut() {
            o.panics = panics;
        }
        out
    });
    for (i, (s, o)) in results.iter().enumerate() {
        rep.case(&format!("{s:?}"), true);
        if i < 3 {
            rep.sample(s.to_json());
        }
        // the order in which the observers saw the events of this scenario
        let mut order: Vec<(u64, u8)> = o.app.iter().map(|(t, _, e)| (*t, match e { NodeEvent::Established { .. } => 1u8, NodeEvent::Closed { .. } => 2, _ => 3 })).collect();
        order.extend(o.plog.iter().map(|(t, _, i, e)| (*t, 10 + *i as u8 * 10 + match e { PEv::Est { .. } => 1, PEv::Closed { .. } => 2, PEv::SubOpened { .. } => 3, _ => 4 })));
        order.sort();
        rep.interleavings.insert(crate::common::fnv(&(format!("{:?}/{:?}", s.shutdown, s.causes), order.iter().map(|x| x.1).collect::<Vec<_>>())));
        check(&mut rep, s, o);
    }
    rep.floor("scenarios_run", 60);
    rep.floor("terminations_checked", 60);
    rep.floor("application_told_closed_exactly_once", 40);
    rep.floor("protocol_told_closed_exactly_once", 60);
    rep.floor("connections_after_protocol_shutdown", 10);
    rep.floor("redials_checked", 40);
    rep.floor("survivor_use_checks", 10);
    rep.floor("directed_close_order_protocols_first", 1);
    rep
}
