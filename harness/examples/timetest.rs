use std::{future::Future, task::{Context, Poll}, time::Duration};
fn main() {
    let rt = tokio::runtime::Builder::new_current_thread().enable_time().start_paused(true).build().unwrap();
    let _g = rt.enter();
    let mut s = Box::pin(tokio::time::sleep(Duration::from_secs(5)));
    let w = futures::task::noop_waker();
    let mut cx = Context::from_waker(&w);
    println!("poll1 {:?}", s.as_mut().poll(&mut cx).is_ready());
    rt.block_on(tokio::time::advance(Duration::from_secs(6)));
    println!("poll2 {:?}", s.as_mut().poll(&mut cx).is_ready());
    // FuturesUnordered variant
    use futures::StreamExt;
    let mut fu = futures::stream::FuturesUnordered::new();
    fu.push(Box::pin(async { tokio::time::sleep(Duration::from_secs(5)).await; 1 }));
    println!("fu1 {:?}", matches!(fu.poll_next_unpin(&mut cx), Poll::Ready(Some(_))));
    rt.block_on(tokio::time::advance(Duration::from_secs(6)));
    println!("fu2 {:?}", matches!(fu.poll_next_unpin(&mut cx), Poll::Ready(Some(_))));
    rt.block_on(async { tokio::time::sleep(Duration::from_millis(1)).await });
    println!("fu3 {:?}", matches!(fu.poll_next_unpin(&mut cx), Poll::Ready(Some(_))));
}
