#!/usr/bin/env python3
"""Regenerates /verif/MANIFEST.json from the table below (single source of truth for the interface)."""
import json, os, subprocess

ROOT = os.path.dirname(os.path.dirname(os.path.abspath(__file__)))

BASELINE_OFF = ("cd /repo && cargo nextest run --workspace --no-fail-fast --tool-config-file pb:/w/lib/nextest.toml "
                "--profile pb --test-threads 8 --offline || cargo test --workspace --no-fail-fast --offline")

# id -> (level, technique, text, note, design_ref)
CHECKS = {
    "C01": ("fault_enumeration",
            "ground-truth identity ledger over executions of the real handshake (honest carriers, frame-aware MITM exhaustive over byte positions, snow-based rogue peer with forged payloads)",
            "Runs the real crypto::noise::handshake thousands of times over in-memory carriers: every byte position of the three handshake "
            "messages is XORed/truncated by a MITM, a rogue peer with a valid Noise session presents a catalogue of forged identity payloads in "
            "both roles, honest controls run under hostile fragmentation. Oracle: Ok(P) only for the true signer of this session's static key; "
            "the receiver of an altered message fails; termination by virtual-time deadlock detection.",
            "Trusts snow/ring and libp2p-identity (used to compute ground truth); weak ed25519 keys excluded. Node level (real nodes on loopback, fault proxy): a dial with another peer's /p2p never yields a connection at the dialer, and a bit flipped at a swept offset of the connection set-up (offsets inside the Noise handshake) never yields a connection at the side that received it.",
            "DESIGN.md §3 C01"),
    "C02": ("fault_enumeration",
            "position-keyed byte-stream monitor over real NoiseSockets + single-frame tamper enumeration by a MITM + branch probes",
            "Real handshake then a prf(seed, offset) stream through NoiseSocket under a cross product of write sizes (incl. 65518..65521, "
            "multi-frame), reader buffers, read-ahead/write-buffer settings, carrier chunking and Pending injection; every delivered byte is "
            "checked against its offset; each tamper kind (bit flips in length/body/tag, truncate, drop, replay, swap, replace, tiny/extended "
            "length) on first/middle/last frame must end in an error with no byte past the tamper point. Mandatory probes prove the auxiliary "
            "buffer, carry-over and back-pressure paths were reached.",
            "Carrier is an in-memory pipe (legal AsyncRead/AsyncWrite); held = on the sessions run.",
            "DESIGN.md §3 C02"),
    "C03": ("exploration",
            "differential negotiation monitor: litep2p vs reference multistream-select in both roles + position-keyed payload transparency + rogue listener + exhaustive message-variant groupings",
            "Every generated (dialer list, listener set, version, carrier script, payload sizes) case runs the real dialer/listener futures over in-memory pipes; "
            "oracle = first-common-name rule, both sides agree, payload written immediately after negotiation arrives unchanged with zero extra bytes before EOF, "
            "termination by virtual-time deadlock detection; the WebRTC message variant is enumerated over all main/fallback/listener subsets of 4 names x 4 groupings.",
            "Reference = multistream-select 0.13; names follow the multistream grammar. Node level: two real nodes with notification protocols over ordered (main, fallbacks) lists of 1-3 of 4 names; the name reported by the listener's validation prompt and by the dialer's stream-opened event must be the dialer's most preferred common name. The first operation on the negotiated stream varies per case and side (plain write, vectored write with 2 or 3 slices, flush first, read before write; vectored reads in half of the cases) and each style is counted in the evidence.",
            "DESIGN.md §3 C03"),
    "C04": ("exploration",
            "message-sequence equality monitor over real Substreams on in-memory yamux + lock-step hand-off check + raw malicious sender + allocation monitor, both build profiles",
            "Real substream::Substream over two real yamux connections: every codec configuration (Identity below/at/above 1024, varint maxima, unbounded) x send API "
            "(Sink send, feed+flush, send_all, send_framed) x size sequences incl. invalid, > 64 KiB and > yamux window; received sequence must equal the accepted "
            "sequence; in lock-step mode the sender does nothing after a send/flush reported Ok until the receiver has the message (hand-off clause, decided by "
            "logical deadlock detection); raw length-prefix attacks must yield an error without panic or over-allocation.",
            "yamux connections are driven by their own tasks as in TcpConnection; held = on the sessions run.",
            "DESIGN.md §3 C04"),
    "C05": ("exploration",
            "per-attempt outcome ledger + quiescent wedge probe over the real TransportManager driven by a scripted transport (small-scope exhaustive + random histories)",
            "All action sequences up to a fixed depth over a small alphabet (dial by peer/address, transport reactions, inbound arrivals, closures) under 4 limit "
            "configurations plus random long histories with adversarial multiaddress shapes are replayed from a fresh real manager; every transport attempt must end "
            "in exactly one established-or-failure event naming the dialed addresses, errors must not start attempts, and at quiescence a disconnected peer with "
            "stored addresses must be dialable again with a real transport call; panics of the manager are violations.",
            "The scripted transport is a hand-written mirror of TcpTransport's contract (trusted base); known finding F3 is listed in known_findings.json.",
            "DESIGN.md §3 C05"),
    "C06": ("exploration",
            "shadow connection counters from the transport-call log + release/surplus probes on the real TransportManager (same scripted harness as C05)",
            "At every step of every explored history: at most two established connections per peer, established inbound/outbound within the configured maxima; at "
            "quiescence a node below its limits must accept_pending and accept a connection from an unknown peer and must not refuse a dial with ConnectionLimit, a "
            "node at its inbound limit must reject the pending connection.",
            "Same trusted base as C05.",
            "DESIGN.md §3 C06"),
    "C08": ("exploration",
            "per-protocol per-peer event grammar + substream-id ledger over real TransportManager/ProtocolSet/TransportService with scripted connections (virtual-time bulk + real-time keep-alive family)",
            "Random histories of overlapping connections (up to two + attempted third) for several peers, open_substream from 1-4 protocols, connection answers "
            "(opened/failed/never), inbound substreams, force-close and keep-alive downgrades; every protocol's TransportService stream must match "
            "(Established (SubstreamOpened|SubstreamOpenFailure)* Closed)* per peer, ids are never reused across protocols, every answered request yields exactly "
            "one correctly routed event, requests are accepted while connected, and the manager never reports the peer closed before a protocol saw the close.",
            "Scripted connections mirror TcpConnection::start(); connection events are judged by a reference model over an order log of the reports sent and the events emitted; a directed scenario (full protocol channel) decides 'protocols before the manager'. Node level: open storms of 40-420 requests on real nodes with a remote stalled by the proxy: every accepted request answered exactly once unless the peer is reported closed. Directed real-time scenarios keep two overlapping connections alive across a keep-alive expiry and close the primary first; a panic inside litep2p under a legal history is reported; both build profiles run in the quick tier.",
            "DESIGN.md §3 C08, §11"),
    "C09": ("exploration",
            "close-instant window monitor on scripted connections in real time with 20/60 ms keep-alive timeouts (layer a; TransportService timers read std::time::Instant, so virtual time cannot be used)",
            "The scripted connection records the instant at which every protocol released it; oracle: never earlier than (last keep-alive activity, timestamped "
            "before the call) + timeout, never while a keep-alive substream is held or an open is in flight, not later than 500 ms after it is due while idle, "
            "traffic of non-keep-alive protocols every T/2 for > T + 1 s must not prolong it, and after the last activity every connection is released within 3 timeouts + 1 s.",
            "Layer b (same check): real nodes on loopback with 400-900 ms keep-alive on the node under test: idle, outbound/inbound substream held for 2.5-4 timeouts, activity shortly before expiry, ping (T/5) + identify only; one-sided early verdicts (reference = the instant the command was sent), late verdict with a 3 T + 3 s window and lag canary. Inbound substreams of the scripted layer are negotiated under main or fallback names.",
            "DESIGN.md §3 C09"),
    "C10": ("exploration",
            "address-book snapshot invariants (hook accessor) + open() argument check on the real TransportManager (same scripted harness as C05)",
            "After every action the stored (address, score) list of each peer is compared with the snapshot before: bound 64, attribution to the peer, newly "
            "remembered addresses must pass the TCP transport's own parser and must not be own listen addresses, provenance from offered addresses, lowest-scored "
            "displacement at the bound, re-scoring of exactly the address used, rediscovery never changes a score, dial(peer) opens a top-k by score within free capacity.",
            "Scores are read through a verif accessor; strict eviction/rediscovery checks are applied to single-address inserts; an unspecified IP offered through add_known_address counts as not dialable. Node level (real TCP transport): for /ip4, /dns and /dns4 addresses the established connection reports the dialed address and a later dial by peer id tries only offered addresses.",
            "DESIGN.md §3 C10"),
    "C13": ("fault_enumeration",
            "request ledger over real nodes (loopback TCP, fault proxy with resets/chunking/delay, chaos executor, scripted requester and responder)",
            "Scenarios vary the target state (connected, known, unknown, unreachable), dial options, bursts of concurrent requests, payload sizes around the maximum, "
            "responder behaviour per request (answer, delayed, reject, stall, late, oversize, connection reset), cancellations at random moments and the inbound "
            "concurrency limit; every call and event is stamped at the user boundary; oracle: at most one terminal event per request id, exactly one within "
            "4 x (dial timeout + 2 x request timeout) unless cancelled, response bytes equal what the responder supplied for that nonce, responder sees each nonce once, "
            "fresh unanswered inbound requests within the configured bound.",
            "Real time: a scheduler-lag canary downgrades starved runs to inconclusive; held = on the scenarios run. Directed families: unreachable peer connects by itself after its requests failed (no stale send, no second event); 4700 immediately failing requests issued before the handle is first polled (more outcomes than the event channel holds), both entry points.",
            "DESIGN.md §3 C13, §11.4"),
    "C14": ("exploration",
            "brute-force XOR oracle over routing-table dumps (hook) + structural invariants on random histories with crafted keys covering all 256 buckets",
            "Histories of inserts (crafted keys through the real entry()), public mutators, connection-state changes, dial failures and pure look-ups; after every "
            "operation: placement by floor(log2(local xor key)), local key never stored, <= 20 per bucket, connected peers never displaced; every closest(target,k) "
            "is compared as an ordered list with a brute-force sort of the stored addressable peers (all single-bit targets, k in {1,3,20,21,400,..}).",
            "Crafted keys are injected through a verif hook that only bypasses hashing; bucket choice/eviction are the real entry().",
            "DESIGN.md §3 C14"),
    "C15": ("exploration",
            "trace checker over QueryEngine actions against a simulated network: all reply orders enumerated for small networks, random beyond, peer-timeout family in real time",
            "The real QueryEngine is driven the way kademlia/mod.rs drives it; oracle over the action trace: never the local node, never a peer twice, fresh in-flight "
            "requests within the parallelism factor, exactly one terminal action, logical termination, result = answered peers sorted by distance within k, closure over "
            "learned closer peers, exactly-once partial results/providers, no request after the quorum is met.",
            "Timeout family uses real sleeps with one-sided (sound) freshness margins.",
            "DESIGN.md §3 C15"),
    "C07": ("fault_enumeration",
            "offline checker over stamped event logs of real Litep2p nodes on loopback (application stream, every user protocol's TransportEvent stream, redial results) with a fault proxy providing the ground truth of connection termination",
            "Two real nodes with two recording user protocols, a notification and a request-response protocol each; scenarios enumerate termination causes (remote close, proxy reset, "
            "FIN/reset/corruption at a byte offset, local force-close, idle expiry) x local protocol shutdown kinds (run() returns Ok/Err, notification handle dropped, request-response "
            "handle dropped) x moment (before/while connected) x remote poke (dead/live protocol) x 1-3 connect cycles under executor chaos. Oracle: after the ground-truth end the "
            "application and every running protocol that saw the connection are told closed exactly once within a bounded window, never before established; dial(peer) afterwards is not "
            "AlreadyConnected and yields an outcome; after a protocol shutdown new connections are still established for the application and the surviving protocols, a surviving "
            "protocol can open a substream on the existing connection (or is told it closed), and a request-response round trip works on the re-established connection.",
            "'Protocols before the manager' is decided by a directed scenario on the scripted world (full protocol channel, hand-polled report future); overlapping double connections are covered by C08's model.",
            "DESIGN.md §3 C07"),
    "C16": ("fault_enumeration",
            "operation ledger over real Litep2p nodes on loopback: every Kademlia operation gets exactly one terminal event within a bounded window under enumerated peer placements and injected faults",
            "Real nodes with Kademlia on loopback TCP; the routing table of the node under test holds peers that are healthy, have only undialable addresses, refuse the port, "
            "blackhole the connection, reset after n bytes (fault proxy) or accept substreams and stay silent; with and without connection limits. Every find_node/get_record/"
            "put_record/put_record_to_peers/get_providers/start_providing call is entered in a ledger by QueryId; the event stream must end each one exactly once, with an event "
            "of the right kind, successes only with the requested quorum, within a window derived from the configured timeouts (bounded progress; lag canary makes a starved run inconclusive).",
            "Unbounded 'eventually' is restated as 'within 106 s of wall time with an idle canary'. Placements include peers the node knows no address for; the quorum is counted over the addressable targets (at least 1), as the code documents.",
            "DESIGN.md §3 C16"),
    "C17": ("exploration",
            "invariants on MemoryStore dumps + reference store comparison on random operation histories over the full configuration grid (short real sleeps cross expiries)",
            "Histories of put/get/put_provider/get_providers/local-provider operations with colliding keys under all bound configurations (0/1/small); after every "
            "operation: counts and sizes within the configuration, provider lists strictly sorted by independently computed XOR distance, no expired record/provider "
            "returned (two-instant bracketing makes real-time races sound), earlier-expiry puts never replace, closest providers retained, re-announcement in place.",
            "Differences outside the statement's clauses are inconclusive, not violations.",
            "DESIGN.md §3 C17"),
    "C18": ("exploration",
            "differential runtime monitor vs libp2p-identity + round-trip and panic monitors (Miri on a subset in thorough)",
            "Every generated byte string / base58 string / key blob / ed25519 key is pushed through the real PeerId API and "
            "compared with the libp2p reference and an independently computed multihash; the code x length grid is enumerated "
            "completely, the rest is seeded sampling. Held = no disagreement, no failed round trip, no panic on the inputs run.",
            "Trusts libp2p-identity 0.2 / multiaddr 0.18 as the reference; says nothing about inputs not generated.",
            "DESIGN.md §3 C18"),
}

CHECKS["C20"] = ("exploration",
            "cid-recomputation oracle on the real Bitswap inbound handler + lossless bounded batching oracle on the real send_response over in-memory yamux",
            "Inbound: hand-encoded wire messages (all 12 supported hashers recomputed independently, unsupported codes, CID versions/codecs, malformed prefixes, "
            "tampered payloads) go through the real on_message_received; every delivered block must equal the wire bytes and hash to its cid. Outbound: random "
            "response sets through the real send_response into a real Substream read raw: every frame <= 4 MiB, blocks that fit a message exactly once and in order, "
            "presences exactly once; extract_next_batch against a reference batching model.",
            "'fits a message' is read as the 2 MiB batch limit; sha3/keccak/blake2b are recomputed with in-harness implementations checked against known answers.",
            "DESIGN.md §3 C20")

CHECKS["C11"] = ("exploration",
            "per-peer user-event automaton + probe-phase bounded progress + panic monitor over real nodes (storm/quiesce/probe/fresh-peer probe, chaos executor, resettable proxies)",
            "2-3 real nodes with scripted users (open/close/validation answers/sends/bursts/stop polling/connection resets) under random configuration; offline "
            "checker over the stamped logs: opened only when closed, closed only when open, notifications only while open, no open-failure while open, inbound streams "
            "opened only after an Accept (or auto-accept with an own request outstanding), outbound opens never exceed requests; from a known idle connected state one "
            "open request must yield exactly one opened/open-failure within 48 s; a reset connection must close the stream on both sides; a fresh peer must still be served; "
            "no litep2p task may panic (debug assertions on in the dbgchk profile).",
            "Storm-phase liveness is not judged; probe windows are guarded by a timer-lag canary. Directed families: a validation prompt left unanswered across a connection loss and reconnect and answered late; a stale dial that fails for an already connected peer in the middle of the storm.",
            "DESIGN.md §3 C11, §11.4")
CHECKS["C12"] = ("exploration",
            "unique-id prefix/order checker per (sender, receiver, mode, open period) over the same real-node runs as C11",
            "Every notification carries (sender, mode, epoch, seq, prf fill); offline: delivered notifications are intact, within the maximum size, strictly increasing in "
            "(epoch, seq) per mode (at most once, in order), and within an open period they are a prefix of the notifications whose send returned Ok; the synchronous send "
            "returns immediately (ChannelClogged observed under heavy bursts and stalled readers); in the probe phase everything accepted while both streams stay open is delivered.",
            "Cross-mode order is not constrained; cancelled (timed-out) async sends are not counted as accepted.",
            "DESIGN.md §3 C12")
CHECKS["C19"] = ("exploration",
            "panic / hang / allocation monitors + encoder round-trip oracle over millions of mutated encodings for every decoder reachable from the wire (Miri on a subset in thorough)",
            "Targets: multistream messages and listener/dialer futures, WebRTC negotiation helpers, substream frame reader under 9 codec configurations, Noise handshake "
            "payload (through a rogue peer with a valid session), public keys, peer ids, Kademlia messages and embedded multiaddresses, Bitswap messages/prefixes and the "
            "real inbound handler. Inputs: library encodings, truncation at every offset, bit flips, varint replacement, splicing, repeated-field bombs, huge declared lengths, noise.",
            "Allocation bound is max(8*max(n,L), 128*n)+64 KiB for protobuf targets (prost amplification measured at ~55x); identify/ping are covered end to end elsewhere.",
            "DESIGN.md §3 C19")

NOT_YET = {}


def hook_commits():
    try:
        out = subprocess.run(["git", "-C", "/repo", "log", "--format=%h %s"], stdout=subprocess.PIPE, text=True).stdout
        return [l.split()[0] for l in out.splitlines() if l.split(" ", 1)[1].startswith("verif hooks")]
    except Exception:
        return []


def main():
    props = [json.loads(l) for l in open(os.path.join(ROOT, "properties.jsonl"))]
    checks, na = [], []
    for p in props:
        pid = p["id"]
        if pid in CHECKS:
            level, technique, text, note, ref = CHECKS[pid]
            checks.append({
                "property_id": pid,
                "quick_cmd": f"./check {pid} --tier quick",
                "thorough_cmd": f"./check {pid} --tier thorough",
                "evidence_file": f"/verif/evidence/{pid}.json",
                "replay_cmd_template": f"./check {pid} --replay {{path}}",
                "engine": "lpverif",
                "level_claimed": {"category": level, "text": text, "design_ref": ref},
                "level_note": note,
                "technique": technique,
            })
        else:
            na.append({"property_id": pid, "reason": NOT_YET.get(pid, "monitor not built yet in this session (runtime monitoring applies; see DESIGN.md §3) — not claimed until its check is silent on the unchanged tree")})
    manifest = {
        "version": 1,
        "setup_cmd": "./setup.sh",
        "hooks": {
            "guard": "cargo feature `verif` of the litep2p crate (off by default)",
            "enable": "the harness crate /verif/harness depends on litep2p = { path = \"/repo\", features = [\"verif\"] }; ./check rebuilds it with cargo before every run",
            "baseline_off_cmd": BASELINE_OFF,
            "source_commits": hook_commits(),
            "add_only": True,
        },
        "engines": [{
            "name": "lpverif",
            "path": "/verif/harness",
            "serves_properties": sorted(CHECKS),
            "kind_free_text": "Rust harness linking the real litep2p crate: workload generators, in-memory carriers, fault proxy, scripted transports, monitors/oracles; driven by /verif/check (python) which shards, merges, applies known_findings.json and writes evidence",
        }],
        "checks": checks,
        "not_applicable": na,
        "notes": "exit 0 held on what was observed; exit 1 VIOLATION; exit 2 INCONCLUSIVE (build failure, watchdog, observation floor not met) — see DESIGN.md §2.6",
    }
    with open(os.path.join(ROOT, "MANIFEST.json"), "w") as f:
        json.dump(manifest, f, indent=1)
    try:
        import jsonschema
        jsonschema.validate(manifest, json.load(open("/root/.vp/MANIFEST.schema.json")))
        print("manifest valid;", len(checks), "checks,", len(na), "not claimed")
    except ImportError:
        print("written (jsonschema unavailable in this interpreter)")


if __name__ == "__main__":
    main()
