#!/usr/bin/env python3
"""usage: seedrecord.py <meta.json> <check> <caught|missed|caught-after-strengthening> "<signatures / note>" [confirm-file]
Adds what /verif ran against the seeded change to its meta.json."""
import json, sys
meta, check, outcome, note = sys.argv[1:5]
d = json.load(open(meta))
d.setdefault("verif_runs", []).append({
    "command": f"git -C /repo apply <patch>; ./check {check} --tier quick --seed 1; git -C /repo checkout -- .",
    "outcome": outcome, "reported": note})
if len(sys.argv) > 5:
    d["confirmed_by"] = f"tools/seedconfirm.sh in a scratch worktree: see {sys.argv[5]} (suite with the change: 420 passed, 3 skipped; demonstration fails with and passes without the change)"
json.dump(d, open(meta, "w"), indent=1)
