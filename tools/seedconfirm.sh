#!/bin/bash
# usage: tools/seedconfirm.sh <worktree> <patch-file-in-/verif/seeded> <out.txt> [demo-file ...]
# Confirms in the scratch worktree that a seeded change compiles, passes the unedited suite, and that
# its demonstration passes without and fails with the change. Leaves the worktree unpatched.
set -u
wt=$1; patch=$(readlink -f "$2"); out=$(readlink -f -m "$3"); shift 3
demos=(); for d in "$@"; do demos+=("$(readlink -f "$d")"); done
cd "$wt" || exit 3
git checkout -q -- . ; git apply "$patch" || { echo "patch does not apply" > "$out"; exit 3; }
{
  echo "== worktree $wt, patch $patch"
  echo "== git diff --stat"; git diff --stat
  echo "== suite with the change applied"
  cargo nextest run --workspace --no-fail-fast --offline --build-jobs 8 --test-threads 8 2>&1 | grep -E "^\s+Summary|^\s+FAIL|SIGABRT|^error" | head -20
  echo "== build with --features verif"; cargo build --offline --features verif -j 8 2>&1 | tail -1
  for demo in "${demos[@]}"; do
    name=$(basename "$demo" .rs)
    cp "$demo" tests/$name.rs
    echo "== demo $name WITH the change"
    cargo nextest run --offline --features verif --build-jobs 8 --test "$name" 2>&1 | grep -E "^\s+Summary|^\s+PASS|^\s+FAIL|^error" | head -20
    git stash -q
    echo "== demo $name WITHOUT the change"
    cargo nextest run --offline --features verif --build-jobs 8 --test "$name" 2>&1 | grep -E "^\s+Summary|^\s+PASS|^\s+FAIL|^error" | head -20
    git stash pop -q
    rm -f tests/$name.rs
  done
} > "$out" 2>&1
git checkout -q -- .
echo "confirm done: $out"
