#!/bin/bash
# usage: tools/seedtest.sh <patch-file> <property> [seed] [tier]
# Applies a seeded breaking change to /repo's working tree, runs one check against it and
# ALWAYS reverts the working tree afterwards. Never commits anything in /repo.
set -u
patch=$(readlink -f "$1"); prop=$2; seed=${3:-1}; tier=${4:-quick}
cd /verif
if [ -n "$(git -C /repo status --porcelain --untracked-files=no)" ]; then echo "seedtest: /repo working tree is not clean" >&2; exit 3; fi
trap 'git -C /repo checkout -- . ; echo "seedtest: /repo reverted"' EXIT
git -C /repo apply "$patch" || { echo "seedtest: patch does not apply" >&2; exit 3; }
./check "$prop" --tier "$tier" --seed "$seed" 2>&1 | grep -E "^\[check\] $prop|^VIOLATION|^KNOWN|^INCONCLUSIVE|tier=" | cut -c1-400
exit 0
