#!/bin/sh
# Offline build of the harness in both profiles. Everything comes from files on disk.
set -e
cd "$(dirname "$0")/harness"
export CARGO_NET_OFFLINE=true
[ -f Cargo.lock ] || cp /repo/Cargo.lock Cargo.lock
cargo build --offline --profile dbgchk
cargo build --offline --profile relchk
